#!/usr/bin/env python3
"""run_rule.py <rule module> <function> <facts dir> [-v]: run one rule of sa/rules on an extracted facts directory (debugging aid)."""
import sys, os, importlib
sys.path.insert(0, os.path.dirname(os.path.dirname(os.path.abspath(__file__))))
from sa.facts import load_program
mod, fn, facts = sys.argv[1], sys.argv[2], sys.argv[3]
prog = load_program(facts)
m = importlib.import_module('sa.rules.' + mod)
for res in getattr(m, fn)(prog, 'quick', '/repo'):
    print(res.rule, len(res.instances))
    for i in res.instances:
        if i.status != 'ok' or '-v' in sys.argv:
            print(' ', i.status, i.key, i.where, i.msg[:300])
    print(' analysed', {k: (v if not isinstance(v, list) or len(v) < 60 else len(v)) for k, v in res.analysed.items()})
