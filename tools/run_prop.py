#!/usr/bin/env python3
"""run_prop.py <facts dir> <PROP> [...]: run the static rules of the given properties (with the inlined-view second opinion) on an
extracted facts directory and print the violations (debugging aid for mutants and refactors)."""
import sys, os
sys.path.insert(0, os.path.dirname(os.path.dirname(os.path.abspath(__file__))))
from sa import registry
from sa.facts import load_program
prog = load_program(sys.argv[1])
for p in sys.argv[2:]:
    n = 0
    for res in registry.run_property(prog, p, 'quick', '/repo', static_only=True):
        for i in res.instances:
            if i.status == 'violation':
                n += 1
                print(f'{p}: {i.full_key()}\n      at {i.where}\n      {i.msg[:260]}')
    print(p, 'violations:', n)
