// samfacts: rustc_private fact extractor for the samlang verification rules.
//
// Injected with RUSTC_WORKSPACE_WRAPPER under `cargo +nightly check`. For every
// workspace crate it writes $SAMFACTS_OUT/<crate>.json (one write per process)
// holding: ADT table, mir_built bodies (statements, places, terminators with
// resolved callees), debug variable names. Compilation then continues so that
// dependents get their rmeta.
#![feature(rustc_private)]

extern crate rustc_abi;
extern crate rustc_driver;
extern crate rustc_hir;
extern crate rustc_interface;
extern crate rustc_middle;
extern crate rustc_span;

use rustc_driver::Compilation;
use rustc_hir::def::DefKind;
use rustc_hir::def_id::{DefId, LOCAL_CRATE};
use rustc_interface::interface::Compiler;
use rustc_middle::mir::{
  self, AggregateKind, AssertKind, BorrowKind, Const, Operand, Place, ProjectionElem, Rvalue,
  StatementKind, TerminatorKind,
};
use rustc_middle::ty::{self, Ty, TyCtxt};
use std::collections::HashMap;
use std::fmt::Write as _;

struct Interner {
  map: HashMap<String, usize>,
  list: Vec<String>,
}

impl Interner {
  fn new() -> Self {
    Interner { map: HashMap::new(), list: Vec::new() }
  }
  fn get(&mut self, s: &str) -> usize {
    if let Some(i) = self.map.get(s) {
      return *i;
    }
    let i = self.list.len();
    self.map.insert(s.to_string(), i);
    self.list.push(s.to_string());
    i
  }
}

fn jstr(s: &str) -> String {
  let mut o = String::with_capacity(s.len() + 2);
  o.push('"');
  for c in s.chars() {
    match c {
      '"' => o.push_str("\\\""),
      '\\' => o.push_str("\\\\"),
      '\n' => o.push_str("\\n"),
      '\r' => o.push_str("\\r"),
      '\t' => o.push_str("\\t"),
      c if (c as u32) < 0x20 => {
        let _ = write!(o, "\\u{:04x}", c as u32);
      }
      c => o.push(c),
    }
  }
  o.push('"');
  o
}

struct Cx<'tcx> {
  tcx: TyCtxt<'tcx>,
  crate_name: String,
  strs: Interner,
  // structured types, interned by their JSON text
  types: Interner,
  ty_cache: HashMap<Ty<'tcx>, usize>,
}

impl<'tcx> Cx<'tcx> {
  fn s(&mut self, s: &str) -> usize {
    self.strs.get(s)
  }

  /// Canonical id of a definition: `<crate>` + verbose def path (stable across crates).
  fn canon(&mut self, did: DefId) -> usize {
    let krate = self.tcx.crate_name(did.krate).to_string();
    let p = self.tcx.def_path(did).to_string_no_crate_verbose();
    let s = format!("{krate}{p}");
    self.s(&s)
  }

  /// Readable path; local items are prefixed with the crate name.
  fn pretty(&mut self, did: DefId) -> usize {
    let p = ty::print::with_no_trimmed_paths!(self.tcx.def_path_str(did));
    let s = if did.is_local() { format!("{}::{}", self.crate_name, p) } else { p };
    self.s(&s)
  }

  fn ty(&mut self, t: Ty<'tcx>) -> usize {
    if let Some(i) = self.ty_cache.get(&t) {
      return *i;
    }
    let printed = ty::print::with_no_trimmed_paths!(format!("{t}"));
    let pi = self.s(&printed);
    let body = match t.kind() {
      ty::Adt(def, args) => {
        let c = self.canon(def.did());
        let p = self.pretty(def.did());
        let mut a = Vec::new();
        for ga in args.iter() {
          if let Some(t2) = ga.as_type() {
            a.push(self.ty(t2).to_string());
          }
        }
        format!("[\"adt\",{c},{p},[{}],{pi}]", a.join(","))
      }
      ty::Ref(_, inner, m) => {
        let i = self.ty(*inner);
        format!("[\"ref\",{i},{},{pi}]", if m.is_mut() { 1 } else { 0 })
      }
      ty::RawPtr(inner, m) => {
        let i = self.ty(*inner);
        format!("[\"ptr\",{i},{},{pi}]", if m.is_mut() { 1 } else { 0 })
      }
      ty::Tuple(ts) => {
        let mut a = Vec::new();
        for t2 in ts.iter() {
          a.push(self.ty(t2).to_string());
        }
        format!("[\"tup\",[{}],{pi}]", a.join(","))
      }
      ty::Slice(inner) => {
        let i = self.ty(*inner);
        format!("[\"slice\",{i},{pi}]")
      }
      ty::Array(inner, _) => {
        let i = self.ty(*inner);
        format!("[\"arr\",{i},{pi}]")
      }
      ty::Param(p) => {
        let n = self.s(p.name.as_str());
        format!("[\"param\",{n},{},{pi}]", p.index)
      }
      ty::Bool | ty::Char | ty::Int(_) | ty::Uint(_) | ty::Float(_) | ty::Str | ty::Never => {
        format!("[\"prim\",{pi}]")
      }
      ty::FnDef(did, _) => {
        let c = self.canon(*did);
        format!("[\"fndef\",{c},{pi}]")
      }
      ty::Closure(did, _) => {
        let c = self.canon(*did);
        format!("[\"closure\",{c},{pi}]")
      }
      _ => format!("[\"other\",{pi}]"),
    };
    let i = self.types.get(&body);
    self.ty_cache.insert(t, i);
    i
  }

  fn place(&mut self, body: &mir::Body<'tcx>, p: &Place<'tcx>) -> String {
    let mut out = String::new();
    let _ = write!(out, "[{},[", p.local.as_usize());
    let mut pty = mir::PlaceTy::from_ty(body.local_decls[p.local].ty);
    let mut first = true;
    for elem in p.projection.iter() {
      if !first {
        out.push(',');
      }
      first = false;
      match elem {
        ProjectionElem::Deref => out.push_str("[\"d\"]"),
        ProjectionElem::Field(f, fty) => {
          match pty.ty.kind() {
            ty::Adt(def, _) => {
              let v = pty.variant_index.unwrap_or(rustc_abi::FIRST_VARIANT);
              let vd = def.variant(v);
              let fname = vd.fields[f].name.to_string();
              let c = self.canon(def.did());
              let fname_i = self.s(&fname);
              let fty_i = self.ty(fty);
              let _ = write!(
                out,
                "[\"f\",{c},{},{},{fname_i},{fty_i}]",
                v.as_usize(),
                f.as_usize()
              );
            }
            _ => {
              let fty_i = self.ty(fty);
              let _ = write!(out, "[\"t\",{},{fty_i}]", f.as_usize());
            }
          }
        }
        ProjectionElem::Downcast(name, v) => {
          let n = name.map(|s| s.to_string()).unwrap_or_default();
          let ni = self.s(&n);
          let _ = write!(out, "[\"v\",{},{ni}]", v.as_usize());
        }
        ProjectionElem::Index(l) => {
          let _ = write!(out, "[\"i\",{}]", l.as_usize());
        }
        ProjectionElem::ConstantIndex { offset, min_length, from_end } => {
          let _ = write!(out, "[\"c\",{offset},{min_length},{}]", if from_end { 1 } else { 0 });
        }
        ProjectionElem::Subslice { from, to, from_end } => {
          let _ = write!(out, "[\"s\",{from},{to},{}]", if from_end { 1 } else { 0 });
        }
        _ => out.push_str("[\"o\"]"),
      }
      pty = pty.projection_ty(self.tcx, elem);
    }
    out.push_str("]]");
    out
  }

  fn constant(&mut self, c: &Const<'tcx>, def: DefId) -> String {
    let t = c.ty();
    let ti = self.ty(t);
    let disp = ty::print::with_no_trimmed_paths!(format!("{c}"));
    let di = self.s(&disp);
    // integer value when directly available (no const evaluation of user items needed)
    let mut int_s = "null".to_string();
    if matches!(t.kind(), ty::Int(_) | ty::Uint(_) | ty::Bool | ty::Char) {
      let typing_env = ty::TypingEnv::post_analysis(self.tcx, def);
      let evaluable = match c {
        Const::Val(..) | Const::Ty(..) => true,
        // named constants of other crates (u8::MAX, i32::MIN, ...): safe to evaluate, no local MIR is stolen
        // ... and named integer constants of this crate without generic arguments (`const HEAP_TAG: u8 = 255`): evaluating
        // them runs the const's own MIR pipeline only, no function body is stolen
        Const::Unevaluated(u, _) => {
          u.promoted.is_none()
            && (!u.def.is_local()
              || (u.args.is_empty()
                && matches!(
                  self.tcx.def_kind(u.def),
                  rustc_hir::def::DefKind::Const { .. } | rustc_hir::def::DefKind::AssocConst { .. }
                )))
        }
      };
      if evaluable {
        if let Some(si) = c.try_eval_scalar_int(self.tcx, typing_env) {
          let size = si.size();
          let v: i128 = if matches!(t.kind(), ty::Int(_)) {
            si.to_int(size)
          } else {
            si.to_uint(size) as i128
          };
          int_s = format!("\"{v}\"");
        }
      }
    }
    let mut fn_s = "null".to_string();
    let mut targs = "null".to_string();
    if let ty::FnDef(did, args) = t.kind() {
      let c = self.canon(*did);
      let p = self.pretty(*did);
      fn_s = format!("[{c},{p}]");
      let a = ty::print::with_no_trimmed_paths!(format!("{args:?}"));
      targs = self.s(&a).to_string();
    }
    let mut unev = "null".to_string();
    if let Const::Unevaluated(u, _) = c {
      let cc = self.canon(u.def);
      unev = cc.to_string();
    }
    format!("{{\"t\":{ti},\"v\":{di},\"i\":{int_s},\"fn\":{fn_s},\"ga\":{targs},\"u\":{unev}}}")
  }

  fn operand(&mut self, body: &mir::Body<'tcx>, o: &Operand<'tcx>, def: DefId) -> String {
    match o {
      Operand::Copy(p) => format!("[\"c\",{}]", self.place(body, p)),
      Operand::Move(p) => format!("[\"m\",{}]", self.place(body, p)),
      Operand::Constant(c) => format!("[\"k\",{}]", self.constant(&c.const_, def)),
      #[allow(unreachable_patterns)]
      _ => "[\"o\"]".to_string(),
    }
  }

  fn rvalue(&mut self, body: &mir::Body<'tcx>, r: &Rvalue<'tcx>, def: DefId) -> String {
    match r {
      Rvalue::Use(o, ..) => format!("[\"use\",{}]", self.operand(body, o, def)),
      Rvalue::Repeat(o, _) => format!("[\"repeat\",{}]", self.operand(body, o, def)),
      Rvalue::Ref(_, bk, p) => {
        let m = match bk {
          BorrowKind::Shared => 0,
          BorrowKind::Fake(_) => 2,
          BorrowKind::Mut { .. } => 1,
        };
        format!("[\"ref\",{m},{}]", self.place(body, p))
      }
      Rvalue::RawPtr(_, p) => format!("[\"rawptr\",{}]", self.place(body, p)),
      Rvalue::Cast(k, o, t) => {
        let ks = format!("{k:?}");
        let ki = self.s(&ks);
        let ti = self.ty(*t);
        format!("[\"cast\",{ki},{},{ti}]", self.operand(body, o, def))
      }
      Rvalue::BinaryOp(op, ab) => {
        let os = format!("{op:?}");
        let oi = self.s(&os);
        let a = self.operand(body, &ab.0, def);
        let b = self.operand(body, &ab.1, def);
        format!("[\"bin\",{oi},{a},{b}]")
      }
      Rvalue::UnaryOp(op, a) => {
        let os = format!("{op:?}");
        let oi = self.s(&os);
        let a = self.operand(body, a, def);
        format!("[\"un\",{oi},{a}]")
      }
      Rvalue::Discriminant(p) => format!("[\"disc\",{}]", self.place(body, p)),
      Rvalue::Aggregate(k, ops) => {
        let ks = match &**k {
          AggregateKind::Array(_) => "[\"array\"]".to_string(),
          AggregateKind::Tuple => "[\"tuple\"]".to_string(),
          AggregateKind::Adt(did, v, _, _, active) => {
            let c = self.canon(*did);
            let adt = self.tcx.adt_def(*did);
            let vname = adt.variant(*v).name.to_string();
            let vi = self.s(&vname);
            let act = active.map(|f| f.as_usize().to_string()).unwrap_or("null".to_string());
            format!("[\"adt\",{c},{},{vi},{act}]", v.as_usize())
          }
          AggregateKind::Closure(did, _) => {
            let c = self.canon(*did);
            format!("[\"closure\",{c}]")
          }
          AggregateKind::RawPtr(..) => "[\"rawptr\"]".to_string(),
          _ => "[\"other\"]".to_string(),
        };
        let mut a = Vec::new();
        for o in ops.iter() {
          a.push(self.operand(body, o, def));
        }
        format!("[\"agg\",{ks},[{}]]", a.join(","))
      }
      Rvalue::CopyForDeref(p) => format!("[\"copyderef\",{}]", self.place(body, p)),
      other => {
        let s = format!("{other:?}");
        let si = self.s(&s);
        format!("[\"other\",{si}]")
      }
    }
  }

  fn span(&mut self, sp: rustc_span::Span) -> (usize, usize, bool) {
    let sm = self.tcx.sess.source_map();
    let exp = sp.from_expansion();
    // report the location of the outermost macro call site for expanded code
    let sp2 = if exp { sp.source_callsite() } else { sp };
    let lo = sm.lookup_char_pos(sp2.lo());
    let file = format!("{}", lo.file.name.prefer_local_unconditionally());
    (self.s(&file), lo.line, exp)
  }

  fn body(&mut self, def: DefId, body: &mir::Body<'tcx>) -> String {
    let tcx = self.tcx;
    let mut out = String::new();
    let c = self.canon(def);
    let p = self.pretty(def);
    let kind = tcx.def_kind(def);
    let kind_s = match kind {
      DefKind::Fn => "fn",
      DefKind::AssocFn => "assoc",
      DefKind::Closure => "closure",
      _ => "other",
    };
    let parent = if matches!(kind, DefKind::Closure) {
      let mut pd = tcx.parent(def);
      while matches!(tcx.def_kind(pd), DefKind::Closure) {
        pd = tcx.parent(pd);
      }
      self.canon(pd).to_string()
    } else {
      "null".to_string()
    };
    let is_pub = if matches!(kind, DefKind::Fn | DefKind::AssocFn) {
      tcx.visibility(def).is_public()
    } else {
      false
    };
    // impl info for associated functions
    let mut impl_self = "null".to_string();
    let mut impl_trait = "null".to_string();
    if matches!(kind, DefKind::AssocFn) {
      let pd = tcx.parent(def);
      if matches!(tcx.def_kind(pd), DefKind::Impl { .. }) {
        let st = tcx.type_of(pd).instantiate_identity().skip_norm_wip();
        impl_self = self.ty(st).to_string();
        if let Some(tr) = tcx.impl_opt_trait_ref(pd) {
          let tr = tr.instantiate_identity().skip_norm_wip();
          let tp = self.pretty(tr.def_id);
          impl_trait = tp.to_string();
        }
      }
    }
    let (file, line, _) = self.span(body.span);
    let _ = write!(
      out,
      "{{\"id\":{c},\"p\":{p},\"k\":\"{kind_s}\",\"parent\":{parent},\"pub\":{is_pub},\"self\":{impl_self},\"trait\":{impl_trait},\"file\":{file},\"line\":{line},\"nargs\":{},",
      body.arg_count
    );
    // locals
    out.push_str("\"locals\":[");
    let mut first = true;
    for ld in body.local_decls.iter() {
      if !first {
        out.push(',');
      }
      first = false;
      let ti = self.ty(ld.ty);
      let _ = write!(out, "{ti}");
    }
    out.push_str("],\"vars\":[");
    first = true;
    for vdi in body.var_debug_info.iter() {
      if let mir::VarDebugInfoContents::Place(pl) = &vdi.value {
        if !first {
          out.push(',');
        }
        first = false;
        let n = self.s(vdi.name.as_str());
        let pj = self.place(body, pl);
        let _ = write!(out, "[{n},{pj}]");
      }
    }
    out.push_str("],\"blocks\":[");
    first = true;
    for (_bb, data) in body.basic_blocks.iter_enumerated() {
      if !first {
        out.push(',');
      }
      first = false;
      let _ = write!(out, "{{\"c\":{},\"s\":[", if data.is_cleanup { 1 } else { 0 });
      let mut f2 = true;
      for st in data.statements.iter() {
        let (_, line, exp) = self.span(st.source_info.span);
        let e = if exp { 1 } else { 0 };
        let txt = match &st.kind {
          StatementKind::Assign(b) => {
            let pl = self.place(body, &b.0);
            let rv = self.rvalue(body, &b.1, def);
            Some(format!("[\"a\",{pl},{rv},{line},{e}]"))
          }
          StatementKind::SetDiscriminant { place, variant_index } => {
            let pl = self.place(body, place);
            Some(format!("[\"sd\",{pl},{},{line},{e}]", variant_index.as_usize()))
          }
          StatementKind::FakeRead(b) => {
            let pl = self.place(body, &b.1);
            let cs = format!("{:?}", b.0);
            let ci = self.s(&cs);
            Some(format!("[\"fr\",{pl},{ci},{line},{e}]"))
          }
          StatementKind::PlaceMention(b) => {
            let pl = self.place(body, b);
            Some(format!("[\"pm\",{pl},{line},{e}]"))
          }
          StatementKind::StorageDead(l) => Some(format!("[\"dead\",{}]", l.as_usize())),
          _ => None,
        };
        if let Some(t) = txt {
          if !f2 {
            out.push(',');
          }
          f2 = false;
          out.push_str(&t);
        }
      }
      out.push_str("],\"t\":");
      let term = data.terminator();
      let (_, line, exp) = self.span(term.source_info.span);
      let e = if exp { 1 } else { 0 };
      let t = match &term.kind {
        TerminatorKind::Goto { target } => format!("[\"goto\",{}]", target.as_usize()),
        TerminatorKind::SwitchInt { discr, targets } => {
          let d = self.operand(body, discr, def);
          let mut a = Vec::new();
          for (v, bb) in targets.iter() {
            a.push(format!("[\"{v}\",{}]", bb.as_usize()));
          }
          format!(
            "[\"switch\",{d},[{}],{},{line},{e}]",
            a.join(","),
            targets.otherwise().as_usize()
          )
        }
        TerminatorKind::Return => format!("[\"ret\",{line}]"),
        TerminatorKind::Unreachable => "[\"unreachable\"]".to_string(),
        TerminatorKind::UnwindResume => "[\"resume\"]".to_string(),
        TerminatorKind::UnwindTerminate(_) => "[\"terminate\"]".to_string(),
        TerminatorKind::Drop { place, target, unwind, .. } => {
          let pl = self.place(body, place);
          let pt = place.ty(body, tcx).ty;
          let ti = self.ty(pt);
          let uw = match unwind {
            mir::UnwindAction::Cleanup(bb) => bb.as_usize().to_string(),
            _ => "null".to_string(),
          };
          format!("[\"drop\",{pl},{ti},{},{uw},{line},{e}]", target.as_usize())
        }
        TerminatorKind::Call { func, args, destination, target, unwind, fn_span, .. } => {
          let f = self.operand(body, func, def);
          // resolve callee
          let mut resolved = "null".to_string();
          if let Some((did, gargs)) = func.const_fn_def() {
            let typing_env = ty::TypingEnv::post_analysis(tcx, def);
            if let Ok(Some(inst)) = ty::Instance::try_resolve(tcx, typing_env, did, gargs) {
              let rd = inst.def_id();
              let rc = self.canon(rd);
              let rp = self.pretty(rd);
              let kind = match inst.def {
                ty::InstanceKind::Item(_) => "item",
                ty::InstanceKind::Virtual(..) => "virtual",
                ty::InstanceKind::ClosureOnceShim { .. } => "closure_once",
                ty::InstanceKind::FnPtrShim(..) => "fnptr_shim",
                ty::InstanceKind::CloneShim(..) => "clone_shim",
                ty::InstanceKind::DropGlue(..) => "drop_glue",
                ty::InstanceKind::Intrinsic(..) => "intrinsic",
                _ => "othershim",
              };
              // self type for clone shims etc.
              resolved = format!("[{rc},{rp},\"{kind}\"]");
            }
          }
          let mut a = Vec::new();
          for o in args.iter() {
            a.push(self.operand(body, &o.node, def));
          }
          let dest = self.place(body, destination);
          let tg = target.map(|b| b.as_usize().to_string()).unwrap_or("null".to_string());
          let uw = match unwind {
            mir::UnwindAction::Cleanup(bb) => bb.as_usize().to_string(),
            _ => "null".to_string(),
          };
          let fexp = if fn_span.from_expansion() { 1 } else { 0 };
          format!("[\"call\",{f},{resolved},[{}],{dest},{tg},{uw},{line},{e},{fexp}]", a.join(","))
        }
        TerminatorKind::Assert { cond, expected, msg, target, .. } => {
          let c = self.operand(body, cond, def);
          let m = match &**msg {
            AssertKind::BoundsCheck { len, index } => {
              let l = self.operand(body, len, def);
              let i = self.operand(body, index, def);
              format!("[\"bounds\",{l},{i}]")
            }
            AssertKind::Overflow(op, a, b) => {
              let os = format!("{op:?}");
              let oi = self.s(&os);
              let a = self.operand(body, a, def);
              let b = self.operand(body, b, def);
              format!("[\"overflow\",{oi},{a},{b}]")
            }
            AssertKind::OverflowNeg(a) => {
              let a = self.operand(body, a, def);
              format!("[\"overflow_neg\",{a}]")
            }
            AssertKind::DivisionByZero(a) => {
              let a = self.operand(body, a, def);
              format!("[\"div_zero\",{a}]")
            }
            AssertKind::RemainderByZero(a) => {
              let a = self.operand(body, a, def);
              format!("[\"rem_zero\",{a}]")
            }
            other => {
              let s = format!("{other:?}");
              let si = self.s(&s);
              format!("[\"other\",{si}]")
            }
          };
          format!(
            "[\"assert\",{c},{},{m},{},{line},{e}]",
            if *expected { 1 } else { 0 },
            target.as_usize()
          )
        }
        TerminatorKind::FalseEdge { real_target, imaginary_target } => {
          format!("[\"false_edge\",{},{}]", real_target.as_usize(), imaginary_target.as_usize())
        }
        TerminatorKind::FalseUnwind { real_target, .. } => {
          format!("[\"false_unwind\",{}]", real_target.as_usize())
        }
        other => {
          let s = format!("{other:?}");
          let si = self.s(&s);
          format!("[\"other\",{si}]")
        }
      };
      out.push_str(&t);
      out.push('}');
    }
    out.push_str("]}");
    out
  }
}

struct Cb;

impl rustc_driver::Callbacks for Cb {
  fn after_expansion<'tcx>(&mut self, _c: &Compiler, tcx: TyCtxt<'tcx>) -> Compilation {
    let out_dir = match std::env::var("SAMFACTS_OUT") {
      Ok(d) => d,
      Err(_) => return Compilation::Continue,
    };
    let crate_name = tcx.crate_name(LOCAL_CRATE).to_string();
    if !crate_name.starts_with("samlang") {
      return Compilation::Continue;
    }
    let mut cx = Cx {
      tcx,
      crate_name: crate_name.clone(),
      strs: Interner::new(),
      types: Interner::new(),
      ty_cache: HashMap::new(),
    };
    // ADTs
    let mut adts = Vec::new();
    for ldid in tcx.hir_crate_items(()).definitions() {
      let did = ldid.to_def_id();
      if !matches!(tcx.def_kind(did), DefKind::Struct | DefKind::Enum | DefKind::Union) {
        continue;
      }
      let adt = tcx.adt_def(did);
      let c = cx.canon(did);
      let p = cx.pretty(did);
      let kind = if adt.is_enum() {
        "enum"
      } else if adt.is_union() {
        "union"
      } else {
        "struct"
      };
      let is_pub = tcx.visibility(did).is_public();
      let generics = tcx.generics_of(did);
      let mut gnames = Vec::new();
      for gp in generics.own_params.iter() {
        if matches!(gp.kind, ty::GenericParamDefKind::Type { .. }) {
          gnames.push(format!("[{},{}]", cx.s(gp.name.as_str()), gp.index));
        }
      }
      let (file, line, _) = cx.span(tcx.def_span(did));
      let mut vars = Vec::new();
      for v in adt.variants().iter() {
        let vn = cx.s(v.name.as_str());
        let mut fields = Vec::new();
        for f in v.fields.iter() {
          let fty = tcx.type_of(f.did).instantiate_identity().skip_norm_wip();
          let ti = cx.ty(fty);
          let fnm = cx.s(f.name.as_str());
          let fpub = f.vis.is_public();
          fields.push(format!("[{fnm},{ti},{fpub}]"));
        }
        vars.push(format!("[{vn},[{}]]", fields.join(",")));
      }
      adts.push(format!(
        "{{\"id\":{c},\"p\":{p},\"k\":\"{kind}\",\"pub\":{is_pub},\"g\":[{}],\"file\":{file},\"line\":{line},\"vars\":[{}]}}",
        gnames.join(","),
        vars.join(",")
      ));
    }
    // bodies
    let mut bodies = Vec::new();
    for ldid in tcx.mir_keys(()) {
      let did = ldid.to_def_id();
      if !matches!(tcx.def_kind(did), DefKind::Fn | DefKind::AssocFn | DefKind::Closure) {
        continue;
      }
      let steal = tcx.mir_built(*ldid);
      let body = steal.borrow();
      bodies.push(cx.body(did, &body));
    }
    let mut out = String::new();
    let _ = write!(out, "{{\"crate\":{},\n\"adts\":[\n{}\n],\n\"bodies\":[\n{}\n],\n", jstr(&crate_name), adts.join(",\n"), bodies.join(",\n"));
    out.push_str("\"types\":[\n");
    out.push_str(&cx.types.list.join(",\n"));
    out.push_str("\n],\n\"strs\":[\n");
    let ss: Vec<String> = cx.strs.list.iter().map(|s| jstr(s)).collect();
    out.push_str(&ss.join(",\n"));
    out.push_str("\n]}\n");
    let path = format!("{out_dir}/{crate_name}.json");
    let tmp = format!("{path}.tmp.{}", std::process::id());
    std::fs::write(&tmp, out).expect("samfacts: cannot write facts");
    std::fs::rename(&tmp, &path).expect("samfacts: cannot rename facts");
    Compilation::Continue
  }
}

fn main() {
  let mut args: Vec<String> = std::env::args().collect();
  // RUSTC_WORKSPACE_WRAPPER passes the real rustc as argv[1]
  if args.len() > 1 && (args[1].ends_with("rustc") || args[1].contains("/rustc")) {
    args.remove(1);
  }
  rustc_driver::run_compiler(&args, &mut Cb);
}
