//! Compile-fail witnesses (E3). Each witness is paired with a compiling twin that differs only in the
//! offending line, so a witness cannot pass merely because a path is misspelt.
//! Run with `cargo +nightly test --doc` (error codes are only checked on nightly).

/// W-HEAP-1: a handle cannot be fabricated from raw parts outside the heap crate.
/// twin (compiles; `no_run`: it is only type-checked, never executed):
/// ```no_run
/// let mut heap = samlang_heap::Heap::new();
/// let p: samlang_heap::PStr = heap.alloc_string("a string longer than fifteen bytes".to_string());
/// assert_eq!(p.as_str(&heap), "a string longer than fifteen bytes");
/// ```
/// witness: the tuple field of `PStr` is private.
/// ```compile_fail,E0616
/// let mut heap = samlang_heap::Heap::new();
/// let p: samlang_heap::PStr = heap.alloc_string("a string longer than fifteen bytes".to_string());
/// let _raw = p.0;
/// ```
/// witness: the tuple-struct constructor is not visible.
/// ```compile_fail,E0603
/// let mut heap = samlang_heap::Heap::new();
/// let p: samlang_heap::PStr = heap.alloc_string("a string longer than fifteen bytes".to_string());
/// let _forged = samlang_heap::PStr(unsafe { std::mem::transmute::<samlang_heap::PStr, _>(p) });
/// ```
/// witness: the representation type cannot be named.
/// ```compile_fail,E0603
/// let _x: Option<samlang_heap::PStrPrivateRepr> = None;
/// ```
pub struct WHeap1;

/// W-HEAP-2: the slot table and the intern maps cannot be touched outside the heap crate.
/// twin (compiles; `no_run`: it is only type-checked, never executed):
/// ```no_run
/// let heap = samlang_heap::Heap::new();
/// let _s = heap.stat();
/// ```
/// ```compile_fail,E0616
/// let heap = samlang_heap::Heap::new();
/// let _s = heap.str_pointer_table.len();
/// ```
/// ```compile_fail,E0616
/// let heap = samlang_heap::Heap::new();
/// let _s = heap.interned_string.len();
/// ```
/// ```compile_fail,E0616
/// let mut heap = samlang_heap::Heap::new();
/// heap.sweep_index = 0;
/// ```
pub struct WHeap2;

/// W-HEAP-3: promotion to the permanent generation is not callable from outside.
/// twin (compiles; `no_run`: it is only type-checked, never executed):
/// ```no_run
/// let mut heap = samlang_heap::Heap::new();
/// let p = heap.alloc_string("a string longer than fifteen bytes".to_string());
/// heap.mark(p);
/// ```
/// ```compile_fail,E0624
/// let mut heap = samlang_heap::Heap::new();
/// let p = heap.alloc_string("a string longer than fifteen bytes".to_string());
/// heap.make_string_permanent(p);
/// ```
pub struct WHeap3;

/// W-STATE: outside samlang-services the module maps of the server state cannot be read or written
/// directly, so their key-set inclusions can only be broken by the mutators the rules analyse.
/// twin (compiles; `no_run`: it is only type-checked, never executed):
/// ```no_run
/// let state = samlang_services::server_state::ServerState::new(
///   samlang_heap::Heap::new(), false, std::collections::HashMap::new());
/// let _n = state.all_modules().len();
/// let _s = state.string_sources.len();
/// ```
/// ```compile_fail,E0616
/// let mut state = samlang_services::server_state::ServerState::new(
///   samlang_heap::Heap::new(), false, std::collections::HashMap::new());
/// state.parsed_modules.clear();
/// ```
/// ```compile_fail,E0616
/// let mut state = samlang_services::server_state::ServerState::new(
///   samlang_heap::Heap::new(), false, std::collections::HashMap::new());
/// state.checked_modules.clear();
/// ```
/// ```compile_fail,E0616
/// let mut state = samlang_services::server_state::ServerState::new(
///   samlang_heap::Heap::new(), false, std::collections::HashMap::new());
/// state.global_cx.clear();
/// ```
/// ```compile_fail,E0616
/// let mut state = samlang_services::server_state::ServerState::new(
///   samlang_heap::Heap::new(), false, std::collections::HashMap::new());
/// state.errors.clear();
/// ```
pub struct WState;
